//! Printing values as Coq terms (N / Z / nat numerals, lists, options, hex strings).
pub fn n<T: std::fmt::Display>(x: T) -> String {
    format!("{}%N", x)
}
pub fn z(x: i128) -> String {
    if x < 0 {
        format!("({})%Z", x)
    } else {
        format!("{}%Z", x)
    }
}
pub fn nat<T: std::fmt::Display>(x: T) -> String {
    format!("{}%nat", x)
}
pub fn b(x: bool) -> &'static str {
    if x {
        "true"
    } else {
        "false"
    }
}
pub fn list(items: &[String]) -> String {
    format!("[{}]", items.join("; "))
}
pub fn opt(x: Option<String>) -> String {
    match x {
        Some(s) => format!("(Some {})", s),
        None => "None".to_string(),
    }
}
pub fn hex(bytes: &[u8]) -> String {
    let mut s = String::with_capacity(bytes.len() * 2 + 2);
    s.push('"');
    for b in bytes {
        s.push_str(&format!("{:02x}", b));
    }
    s.push('"');
    s
}
/// big-endian bytes as one number
pub fn be_num(bytes: &[u8]) -> u128 {
    let mut r: u128 = 0;
    for b in bytes {
        r = (r << 8) | (*b as u128);
    }
    r
}
/// 20-byte identifier as an N literal: the bytes read as a little-endian number (any
/// injective encoding serves the state-machine models, which treat identifiers as opaque;
/// little-endian keeps the literals short for pools that vary the leading bytes)
pub fn id20(bytes: &[u8; 20]) -> String {
    let mut digits: Vec<u8> = vec![0];
    for &byte in bytes.iter().rev() {
        let mut carry = byte as u32;
        for d in digits.iter_mut() {
            let v = (*d as u32) * 256 + carry;
            *d = (v % 10) as u8;
            carry = v / 10;
        }
        while carry > 0 {
            digits.push((carry % 10) as u8);
            carry /= 10;
        }
    }
    let s: String = digits.iter().rev().map(|d| (b'0' + d) as char).collect();
    format!("{}%N", s)
}
