//! C14 / C18: the real http reply writers (`AnnounceResponse`, `ScrapeResponse`,
//! `FailureResponse` `write_bytes`) against the byte-exact model; and the start-up refusal of
//! configurations whose replies cannot fit the buffers.
use std::collections::BTreeMap;
use std::net::{Ipv4Addr, Ipv6Addr};

use aquatic_http_protocol::common::InfoHash;
use aquatic_http_protocol::response::*;

use crate::coqfmt as cq;
use crate::prng::Prng;
use crate::Args;

fn num(rng: &mut Prng) -> usize {
    match rng.below(6) {
        0 => 0,
        1 => 9,
        2 => 10,
        3 => usize::MAX,
        4 => rng.below(100000) as usize,
        _ => rng.next() as usize,
    }
}

/// every reply parses back (serde_bencode) to a value that is written to the same bytes
fn parse_back(bytes: &[u8]) {
    // serde_bencode reads integers as i64: replies whose counters exceed i64::MAX (impossible
    // peer counts; recorded as a known limitation) are not expected to parse back
    let text = String::from_utf8_lossy(bytes);
    let mut big = false;
    for part in text.split(|c: char| !c.is_ascii_digit()) {
        if part.len() >= 19 && part.parse::<i64>().is_err() {
            big = true;
        }
    }
    if big {
        return;
    }
    let parsed = Response::parse_bytes(bytes).expect("reply does not parse back");
    let mut again = Vec::new();
    parsed.write_bytes(&mut again).unwrap();
    assert_eq!(again, bytes, "reply does not round-trip through Response::parse_bytes");
}

pub fn run(args: &Args) {
    crate::drive(args, 0x4772, |rng, _keep, _seed, header, items| {
        *header = "true".to_string();
        for _ in 0..5 {
            match rng.below(3) {
                0 => {
                    let v6 = rng.chance(1, 2);
                    let n = *rng.pick(&[0usize, 1, 2, 3, 50]);
                    let mut p4 = Vec::new();
                    let mut p6 = Vec::new();
                    for _ in 0..n {
                        if v6 {
                            let mut o = [0u8; 16];
                            for b in o.iter_mut() {
                                *b = rng.below(256) as u8
                            }
                            p6.push(ResponsePeer { ip_address: Ipv6Addr::from(o), port: rng.below(65536) as u16 });
                        } else {
                            p4.push(ResponsePeer {
                                ip_address: Ipv4Addr::new(rng.below(256) as u8, 0, 255, rng.below(256) as u8),
                                port: rng.below(65536) as u16,
                            });
                        }
                    }
                    let warning = if rng.chance(1, 4) {
                        Some(if rng.chance(1, 2) {
                            rng.pick(&["", "w", "h\u{e9}llo"]).to_string()
                        } else {
                            // boundary lengths: the bencode length prefix changes its digit count
                            let len = *rng.pick(&[9usize, 10, 11, 63, 64, 65, 99, 100, 101, 255, 256, 999, 1000]);
                            (0..len).map(|_| (b'a' + rng.below(26) as u8) as char).collect::<String>()
                        })
                    } else {
                        None
                    };
                    let r = AnnounceResponse {
                        announce_interval: num(rng),
                        complete: num(rng),
                        incomplete: num(rng),
                        peers: ResponsePeerListV4(p4.clone()),
                        peers6: ResponsePeerListV6(p6.clone()),
                        warning_message: warning.clone(),
                    };
                    let mut out = Vec::new();
                    let n_written = r.write_bytes(&mut out).unwrap();
                    assert_eq!(n_written, out.len(), "AnnounceResponse::write_bytes returned a count different from the bytes it wrote (the tracker frames the reply with that count)");
                    parse_back(&out);
                    let p4t: Vec<String> = p4.iter().map(|p| format!("({}, {})", cq::hex(&p.ip_address.octets()), cq::n(p.port))).collect();
                    let p6t: Vec<String> = p6.iter().map(|p| format!("({}, {})", cq::hex(&p.ip_address.octets()), cq::n(p.port))).collect();
                    items.push(format!(
                        "RAnn {} {} {} {} {} {} {}",
                        cq::n(r.complete),
                        cq::n(r.incomplete),
                        cq::n(r.announce_interval),
                        cq::list(&p4t),
                        cq::list(&p6t),
                        cq::opt(warning.map(|w| cq::hex(w.as_bytes()))),
                        cq::hex(&out)
                    ));
                }
                1 => {
                    let n = *rng.pick(&[0usize, 1, 2, 5, 66]);
                    let mut files = BTreeMap::new();
                    for _ in 0..n {
                        let mut h = [0u8; 20];
                        for b in h.iter_mut() {
                            *b = rng.below(256) as u8
                        }
                        files.insert(InfoHash(h), ScrapeStatistics { complete: num(rng), incomplete: num(rng), downloaded: 0 });
                    }
                    let r = ScrapeResponse { files: files.clone() };
                    let mut out = Vec::new();
                    let n_written = r.write_bytes(&mut out).unwrap();
                    assert_eq!(n_written, out.len(), "ScrapeResponse::write_bytes returned a count different from the bytes it wrote");
                    parse_back(&out);
                    let ft: Vec<String> = files
                        .iter()
                        .map(|(h, s)| format!("({}, ({}, {}))", cq::hex(&h.0), cq::n(s.complete), cq::n(s.incomplete)))
                        .collect();
                    items.push(format!("RScr {} {}", cq::list(&ft), cq::hex(&out)));
                }
                _ => {
                    let long: String = {
                        let len = *rng.pick(&[9usize, 10, 11, 63, 64, 65, 99, 100, 101, 199, 200, 201, 1000]);
                        (0..len).map(|_| (b'a' + rng.below(26) as u8) as char).collect()
                    };
                    let reason: &str = if rng.chance(1, 2) { &long } else { *rng.pick(&["Info hash not allowed", "", "x", "f\u{e4}il \u{1F600}"]) };
                    let r = FailureResponse::new(reason.to_string());
                    let mut out = Vec::new();
                    let n_written = r.write_bytes(&mut out).unwrap();
                    assert_eq!(n_written, out.len(), "FailureResponse::write_bytes returned a count different from the bytes it wrote");
                    parse_back(&out);
                    items.push(format!("RFail {} {}", cq::hex(reason.as_bytes()), cq::hex(&out)));
                }
            }
        }
    });
}

/// start-up refusal: (tracker, limit value tried, refused?)
pub fn run_refusal(args: &Args) {
    crate::drive(args, 0x4ef, |_rng, _keep, _seed, header, items| {
        *header = "true".to_string();
        // udp: max_response_peers one above the mio limit
        let mut c = aquatic_udp::config::Config::default();
        c.protocol.max_response_peers = aquatic_udp::common::MAX_RESPONSE_PEERS_LIMIT + 1;
        c.network.use_io_uring = false;
        let refused = aquatic_udp::run(c).is_err();
        items.push(format!("(0%N, {}, {})", cq::n(aquatic_udp::common::MAX_RESPONSE_PEERS_LIMIT + 1), cq::b(refused)));
        // http: max_peers one above the limit
        let mut c = aquatic_http::config::Config::default();
        c.protocol.max_peers = aquatic_http::config::MAX_PEERS_LIMIT + 1;
        let refused = aquatic_http::run(c).is_err();
        items.push(format!("(2%N, {}, {})", cq::n(aquatic_http::config::MAX_PEERS_LIMIT + 1), cq::b(refused)));
    });
}
