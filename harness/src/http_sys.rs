//! C16: request histories against a RUNNING http tracker (aquatic_http::run in a child process
//! of the harness, one per case, killed afterwards): socket_workers x swarm_workers in {1,2,3}^2,
//! keep_alive on/off, 4 TCP connections (three from 127.0.0.1, one from ::1) open at the same
//! time, requests cut into TCP segments at random bytes (sometimes every byte), scrapes whose
//! hashes map to different swarm workers (first bytes 0..5), more hashes than
//! max_scrape_torrents, malformed and oversized requests, and bursts of simultaneous announces.
use std::io::{Read, Write};
use std::net::{IpAddr, Ipv4Addr, Ipv6Addr, SocketAddrV4, SocketAddrV6, TcpStream};
use std::time::{Duration, Instant};

use aquatic_http::config::Config;
use aquatic_http_protocol::response::Response;

use crate::coqfmt as cq;
use crate::prng::Prng;
use crate::Args;

const INTERVAL: usize = 777;

/// `http-tracker`: the child process
pub fn tracker_child(args: &Args) {
    let g = |k: &str| -> usize { args.extra.get(k).map(|s| s.parse().unwrap()).unwrap_or(1) };
    let mut c = Config::default();
    let port = g("port") as u16;
    c.socket_workers = g("socket-workers");
    c.swarm_workers = g("swarm-workers");
    c.network.address_ipv4 = SocketAddrV4::new(Ipv4Addr::LOCALHOST, port);
    c.network.address_ipv6 = SocketAddrV6::new(Ipv6Addr::LOCALHOST, port, 0, 0);
    c.network.keep_alive = g("keep-alive") == 1;
    c.protocol.max_scrape_torrents = g("max-scrape");
    c.protocol.max_peers = g("max-peers");
    c.protocol.peer_announce_interval = INTERVAL;
    c.cleaning.torrent_cleaning_interval = 100_000;
    c.cleaning.connection_cleaning_interval = 100_000;
    if let Some(v) = args.extra.get("cleaning-interval") {
        c.cleaning.torrent_cleaning_interval = v.parse().unwrap();
    }
    if let Some(v) = args.extra.get("max-peer-age") {
        c.cleaning.max_peer_age = v.parse().unwrap();
    }
    if let Some(path) = args.extra.get("acl-path") {
        c.access_list.path = path.into();
        c.access_list.mode = if g("acl-mode") == 1 {
            aquatic_common::access_list::AccessListMode::Allow
        } else {
            aquatic_common::access_list::AccessListMode::Deny
        };
    }
    if args.extra.get("proxy").map(|v| v == "1").unwrap_or(false) {
        c.network.runs_behind_reverse_proxy = true;
        c.network.reverse_proxy_ip_header_name = "X-Forwarded-For".into();
    }
    if let Err(e) = aquatic_http::run(c) {
        eprintln!("tracker child: {:#}", e);
        std::process::exit(3);
    }
}

struct Child(std::process::Child);
impl Drop for Child {
    fn drop(&mut self) {
        let _ = self.0.kill();
        let _ = self.0.wait();
    }
}

fn free_port() -> u16 {
    std::net::TcpListener::bind("127.0.0.1:0").unwrap().local_addr().unwrap().port()
}

fn start_child(sw: usize, ww: usize, ka: bool, max_scrape: usize, max_peers: usize, acl: Option<(u8, String)>) -> (Child, u16) {
    start_child_proxy(sw, ww, ka, max_scrape, max_peers, acl, false)
}

fn start_child_proxy(sw: usize, ww: usize, ka: bool, max_scrape: usize, max_peers: usize, acl: Option<(u8, String)>, proxy: bool) -> (Child, u16) {
    for _ in 0..4 {
        let port = free_port();
        let mut cmd = std::process::Command::new(std::env::current_exe().unwrap());
        cmd.arg("http-tracker");
        if let Some((mode, path)) = &acl {
            cmd.args(["--acl-mode", &mode.to_string(), "--acl-path", path]);
        }
        if proxy {
            cmd.args(["--proxy", "1"]);
        }
        let child = cmd
            .args([
                "--port",
                &port.to_string(),
                "--socket-workers",
                &sw.to_string(),
                "--swarm-workers",
                &ww.to_string(),
                "--keep-alive",
                if ka { "1" } else { "0" },
                "--max-scrape",
                &max_scrape.to_string(),
                "--max-peers",
                &max_peers.to_string(),
            ])
            .stdout(std::process::Stdio::null())
            .stderr(std::process::Stdio::null())
            .spawn()
            .unwrap();
        let child = Child(child);
        let deadline = Instant::now() + Duration::from_secs(8);
        while Instant::now() < deadline {
            if TcpStream::connect(("127.0.0.1", port)).is_ok() && TcpStream::connect(("::1", port)).is_ok() {
                // wait until every worker answers: a few real scrapes (connections are spread over
                // the socket workers by SO_REUSEPORT) for torrents nobody uses
                let mut ok = 0;
                for i in 0..(3 * sw.max(2)) {
                    if let Ok(mut s) = TcpStream::connect(("127.0.0.1", port)) {
                        s.set_read_timeout(Some(Duration::from_secs(10))).unwrap();
                        let q: Vec<String> = (0..3u8).map(|j| format!("info_hash={}", pct(&[j + 250, i as u8, 9, 9, 9, 9, 9, 9, 9, 9, 9, 9, 9, 9, 9, 9, 9, 9, 9, 9]))).collect();
                        let text = format!("GET /scrape?{} HTTP/1.1\r\nHost: t\r\n{}\r\n", q.join("&"), if proxy { "X-Forwarded-For: 198.51.100.1\r\n" } else { "" });
                        let (raw, _) = exchange(&mut s, text.as_bytes(), &[], true);
                        if raw.starts_with(b"HTTP/1.1 200") {
                            ok += 1;
                        }
                    }
                }
                if ok > 0 {
                    return (child, port);
                }
            }
            std::thread::sleep(Duration::from_millis(20));
        }
    }
    panic!("harness: could not start an http tracker child");
}

fn pct(bytes: &[u8]) -> String {
    bytes.iter().map(|b| format!("%{:02x}", b)).collect()
}

struct Conn {
    stream: Option<TcpStream>,
    v6: bool,
}

fn connect(v6: bool, port: u16) -> TcpStream {
    let s = if v6 { TcpStream::connect(("::1", port)) } else { TcpStream::connect(("127.0.0.1", port)) }.unwrap();
    s.set_nodelay(true).unwrap();
    s.set_read_timeout(Some(Duration::from_millis(6000))).unwrap();
    s
}

/// Send `text` cut at the given points; read one reply: (raw bytes, closed by the server afterwards)
fn exchange(stream: &mut TcpStream, text: &[u8], cuts: &[usize], expect_reply: bool) -> (Vec<u8>, bool) {
    let mut start = 0;
    for &c in cuts.iter().chain(std::iter::once(&text.len())) {
        if c > start && c <= text.len() {
            if stream.write_all(&text[start..c]).is_err() {
                break;
            }
            let _ = stream.flush();
            if cuts.len() < 40 {
                std::thread::sleep(Duration::from_micros(1500));
            }
            start = c;
        }
    }
    // read header, then Content-Length bytes
    let mut raw = Vec::new();
    let mut buf = [0u8; 16384];
    let mut closed = false;
    let mut need: Option<usize> = None;
    if !expect_reply {
        stream.set_read_timeout(Some(Duration::from_millis(120))).unwrap();
    }
    loop {
        if let Some(n) = need {
            if raw.len() >= n {
                break;
            }
        }
        match stream.read(&mut buf) {
            Ok(0) => {
                closed = true;
                break;
            }
            Ok(n) => {
                raw.extend_from_slice(&buf[..n]);
                if need.is_none() {
                    if let Some(pos) = raw.windows(4).position(|w| w == b"\r\n\r\n") {
                        let head = String::from_utf8_lossy(&raw[..pos]).to_string();
                        let cl = head
                            .lines()
                            .find_map(|l| l.strip_prefix("Content-Length:").map(|v| v.trim().parse::<usize>().unwrap_or(0)))
                            .unwrap_or(0);
                        need = Some(pos + 4 + cl);
                    }
                }
            }
            Err(_) => break, // timeout: nothing (more) came
        }
    }
    stream.set_read_timeout(Some(Duration::from_millis(6000))).unwrap();
    if !closed && need.map(|n| raw.len() >= n).unwrap_or(false) {
        // did the server close after the reply (keep_alive off)? look for EOF briefly
        stream.set_read_timeout(Some(Duration::from_millis(60))).unwrap();
        match stream.read(&mut buf) {
            Ok(0) => closed = true,
            Ok(n) => raw.extend_from_slice(&buf[..n]), // surplus bytes: will not match the model
            Err(_) => {}
        }
        stream.set_read_timeout(Some(Duration::from_millis(6000))).unwrap();
    }
    (raw, closed)
}

fn key_num(v6: bool, port: u16) -> String {
    if v6 {
        crate::http_swarm::key_num(IpAddr::V6(Ipv6Addr::LOCALHOST), port)
    } else {
        crate::http_swarm::key_num(IpAddr::V4(Ipv4Addr::LOCALHOST), port)
    }
}

/// structured reply term from the body, as the real client-side parser reads it
fn reply_term(body: &[u8]) -> Option<String> {
    // strip the trailing CRLF the tracker appends
    let body = body.strip_suffix(b"\r\n").unwrap_or(body);
    match Response::parse_bytes(body).ok()? {
        Response::Announce(a) => {
            let p4: Vec<String> = a.peers.0.iter().map(|p| format!("({}, {})", cq::hex(&p.ip_address.octets()), cq::n(p.port))).collect();
            let p6: Vec<String> = a.peers6.0.iter().map(|p| format!("({}, {})", cq::hex(&p.ip_address.octets()), cq::n(p.port))).collect();
            if a.warning_message.is_some() {
                return None;
            }
            Some(format!(
                "YAnnounce {} {} {} {} {}",
                cq::n(a.complete),
                cq::n(a.incomplete),
                cq::n(a.announce_interval),
                cq::list(&p4),
                cq::list(&p6)
            ))
        }
        Response::Scrape(s) => {
            let files: Vec<String> = s
                .files
                .iter()
                .map(|(h, st)| format!("({}, ({}, {}, {}))", cq::hex(&h.0), cq::n(st.complete), cq::n(st.downloaded), cq::n(st.incomplete)))
                .collect();
            Some(format!("YScrape {}", cq::list(&files)))
        }
        Response::Failure(f) => Some(format!("YFailure {}", cq::hex(f.failure_reason.as_bytes()))),
    }
}

pub fn run(args: &Args) {
    let mut seg_total = 0usize;
    let mut kinds: std::collections::HashMap<&'static str, usize> = std::collections::HashMap::new();
    crate::drive(args, 0x16c, |rng, _keep, _seed, header, items| {
        let sw = 1 + rng.below(3) as usize;
        let ww = 1 + rng.below(3) as usize;
        let ka = rng.chance(3, 4);
        let max_scrape = *rng.pick(&[1usize, 2, 3, 100]);
        let max_peers = *rng.pick(&[1usize, 2, 3, 50]);
        // a third of the cases: the tracker runs behind a reverse proxy; every request names the
        // peer's address in X-Forwarded-For, a different one from request to request on the same
        // (keep-alive) connection; the address family of a request is that of the named address
        let proxy = args.extra.get("proxy").map(|v| v == "1").unwrap_or(false) || rng.chance(1, 3);
        let fwd_pool: [(&str, IpAddr); 6] = [
            ("10.1.2.3", "10.1.2.3".parse().unwrap()),
            ("10.1.2.4", "10.1.2.4".parse().unwrap()),
            ("192.0.2.77", "192.0.2.77".parse().unwrap()),
            ("::ffff:10.1.2.4", "10.1.2.4".parse().unwrap()),
            ("2001:db8::5", "2001:db8::5".parse().unwrap()),
            ("2001:db8::6", "2001:db8::6".parse().unwrap()),
        ];
        // torrents: first bytes 0..5 so that they spread over up to 3 swarm workers
        let pool: Vec<[u8; 20]> = (0..6u8)
            .map(|i| {
                let mut h = [0u8; 20];
                for b in h.iter_mut() {
                    *b = rng.below(256) as u8;
                }
                h[0] = i;
                h
            })
            .collect();
        // access list: off, or allow / deny naming torrents 0 and 3
        let acl_mode = *rng.pick(&[0u8, 0, 1, 2]);
        let acl_path = format!("/verif/.cache/scratch/http-sys-acl-{}.txt", std::process::id());
        let acl = if acl_mode == 0 {
            None
        } else {
            let text: String = [pool[0], pool[3]].iter().map(|h| format!("{}\n", h.iter().map(|b| format!("{:02x}", b)).collect::<String>())).collect();
            std::fs::create_dir_all("/verif/.cache/scratch").unwrap();
            std::fs::write(&acl_path, text).unwrap();
            Some((acl_mode, acl_path.clone()))
        };
        *header = format!(
            "{}, {}, {}, {}, {}, {}, {}, {}",
            cq::nat(sw),
            cq::nat(ww),
            cq::b(ka),
            cq::nat(max_scrape),
            cq::nat(max_peers),
            cq::n(INTERVAL),
            match acl_mode { 0 => "AclOff", 1 => "AclAllow", _ => "AclDeny" },
            if acl_mode == 0 { "[]".to_string() } else { cq::list(&[cq::id20(&pool[0]), cq::id20(&pool[3])]) }
        );
        let (_child, port) = start_child_proxy(sw, ww, ka, max_scrape, max_peers, acl, proxy);
        let child_pid = _child.0.id() as i32;
        let mut conns: Vec<Conn> = vec![
            Conn { stream: None, v6: false },
            Conn { stream: None, v6: false },
            Conn { stream: None, v6: false },
            Conn { stream: None, v6: true },
        ];
        for c in conns.iter_mut() {
            c.stream = Some(connect(c.v6, port));
        }
        let announce_text = |rng: &mut Prng, hash: &[u8; 20], aport: u16, hdr: &str| -> (Vec<u8>, u8, u64, Option<usize>) {
            let ev = rng.below(4) as u8;
            let left = *rng.pick(&[0u64, 0, 1, 5000]);
            let want = *rng.pick(&[None, Some(0usize), Some(1), Some(2), Some(5), Some(60)]);
            let mut params = vec![
                format!("info_hash={}", pct(hash)),
                format!("peer_id={}", pct(&[b'p'; 20])),
                format!("port={}", aport),
                "uploaded=0".to_string(),
                "downloaded=0".to_string(),
                format!("left={}", left),
                "compact=1".to_string(),
            ];
            match ev {
                1 => params.push("event=completed".into()),
                2 => params.push("event=started".into()),
                3 => params.push("event=stopped".into()),
                _ => {}
            }
            if let Some(w) = want {
                params.push(format!("numwant={}", w));
            }
            for i in (1..params.len()).rev() {
                let j = rng.below(i as u64 + 1) as usize;
                params.swap(i, j);
            }
            (format!("GET /announce?{} HTTP/1.1\r\nHost: t\r\n{}\r\n", params.join("&"), hdr).into_bytes(), ev, left, want)
        };
        let hop_announce = |src: Option<IpAddr>, v6: bool, hash: &[u8; 20], aport: u16, ev: u8, left: u64, want: Option<usize>| -> String {
            format!(
                "HAnnounce {} {} {} {} {} 0 {} 0 0",
                cq::b(src.map(|a| a.is_ipv6()).unwrap_or(v6)),
                cq::id20(hash),
                match src {
                    Some(a) => crate::http_swarm::key_num(a, aport),
                    None => key_num(v6, aport),
                },
                cq::b(ev == 3),
                cq::n(left),
                match want {
                    None => "None".to_string(),
                    Some(n) => format!("(Some {})", cq::nat(n)),
                }
            )
        };
        let cuts_for = |rng: &mut Prng, len: usize| -> Vec<usize> {
            match rng.below(7) {
                0 => vec![],
                1 => (1..len).collect(), // every byte on its own
                5 => vec![len - 1 - rng.below(4) as usize], // the last 1..4 bytes in a segment of their own
                6 => (len - 4..len).collect(),              // each of the last four bytes on its own
                _ => {
                    let mut c: Vec<usize> = (0..1 + rng.below(4)).map(|_| 1 + rng.below(len as u64 - 1) as usize).collect();
                    c.sort();
                    c.dedup();
                    c
                }
            }
        };
        let n_steps = 8 + rng.below(14) as usize;
        for _ in 0..n_steps {
            let ci = rng.below(conns.len() as u64) as usize;
            let v6 = conns[ci].v6;
            if conns[ci].stream.is_none() {
                conns[ci].stream = Some(connect(v6, port));
            }
            if acl_mode != 0 && rng.chance(1, 7) {
                // rewrite the access list and ask the tracker to reload it (SIGUSR1); sometimes the new
                // file is unreadable: the previous list must stay in force
                let ok = rng.chance(3, 4);
                let listed: Vec<[u8; 20]> = pool.iter().copied().filter(|_| rng.chance(1, 2)).collect();
                let mut text: String = listed.iter().map(|h| format!("{}\n", h.iter().map(|b| format!("{:02x}", b)).collect::<String>())).collect();
                if !ok {
                    text.push_str("this is not an info hash\n");
                }
                std::fs::write(&acl_path, text).unwrap();
                unsafe {
                    libc::kill(child_pid, libc::SIGUSR1);
                }
                std::thread::sleep(Duration::from_millis(250));
                items.push(format!("YReload {} {}", cq::list(&listed.iter().map(cq::id20).collect::<Vec<_>>()), cq::b(ok)));
                *kinds.entry("reload").or_insert(0) += 1;
                continue;
            }
            let kind = rng.below(12);
            let fwd: Option<(&str, IpAddr)> = if proxy { Some(*rng.pick(&fwd_pool)) } else { None };
            let hdr = fwd.map(|(t, _)| format!("X-Forwarded-For: {}\r\n", t)).unwrap_or_default();
            let src = fwd.map(|(_, a)| a);
            let fam6 = src.map(|a| a.is_ipv6()).unwrap_or(v6);
            let mut one = |rng: &mut Prng, conns: &mut Vec<Conn>, ci: usize, text: Vec<u8>, op: Option<String>, name: &'static str| -> String {
                *kinds.entry(name).or_insert(0) += 1;
                let cuts = cuts_for(rng, text.len());
                seg_total += cuts.len() + 1;
                let stream = conns[ci].stream.as_mut().unwrap();
                let (raw, closed) = exchange(stream, &text, &cuts, op.is_some());
                if closed {
                    conns[ci].stream = None;
                }
                let reply = if raw.is_empty() {
                    "None".to_string()
                } else {
                    let body_start = raw.windows(4).position(|w| w == b"\r\n\r\n").map(|p| p + 4).unwrap_or(raw.len());
                    match reply_term(&raw[body_start..]) {
                        Some(t) => format!("(Some ({}, {}))", cq::hex(&raw), t),
                        None => format!("(Some ({}, YFailure \"\"))", cq::hex(&raw)),
                    }
                };
                format!("YStep {} {} {} {}", cq::n(ci), cq::opt(op.map(|o| format!("({})", o))), reply, cq::b(closed))
            };
            match kind {
                0..=5 => {
                    let hash = *rng.pick(&pool);
                    let aport = *rng.pick(&[6881u16, 6882, 6883, 6884, 6885, 6886, 6887]);
                    let (text, ev, left, want) = announce_text(rng, &hash, aport, &hdr);
                    let op = hop_announce(src, v6, &hash, aport, ev, left, want);
                    let t = one(rng, &mut conns, ci, text, Some(op), "announce");
                    items.push(t);
                }
                6..=8 => {
                    let n = *rng.pick(&[1usize, 2, 3, 4, 6, 9]);
                    let hs: Vec<[u8; 20]> = (0..n)
                        .map(|i| {
                            if rng.chance(3, 4) {
                                *rng.pick(&pool)
                            } else {
                                let mut h = [i as u8 + 100; 20];
                                h[0] = rng.below(6) as u8;
                                h
                            }
                        })
                        .collect();
                    let q: Vec<String> = hs.iter().map(|h| format!("info_hash={}", pct(h))).collect();
                    let text = format!("GET /scrape?{} HTTP/1.1\r\nHost: t\r\n{}\r\n", q.join("&"), hdr).into_bytes();
                    let op = format!("HScrape {} {}", cq::b(fam6), cq::list(&hs.iter().map(cq::id20).collect::<Vec<_>>()));
                    let t = one(rng, &mut conns, ci, text, Some(op), "scrape");
                    items.push(t);
                }
                9 => {
                    // malformed: complete http request the tracker cannot use; the connection
                    // then waits for more bytes, so fill its request buffer
                    let mut text = match rng.below(4) {
                        0 => b"GET /announce?info_hash=short&port=1 HTTP/1.1\r\nHost: t\r\n\r\n".to_vec(),
                        1 => b"GET /other HTTP/1.1\r\n\r\n".to_vec(),
                        2 => b"\x00\x01\x02garbage\r\n\r\n".to_vec(),
                        _ => b"POST /scrape HTTP/1.1\r\n\r\n".to_vec(),
                    };
                    while text.len() < 2100 {
                        text.push(b'x');
                    }
                    let t = one(rng, &mut conns, ci, text, None, "malformed-filled");
                    conns[ci].stream = None;
                    items.push(t);
                }
                10 => {
                    // oversized: a well-formed scrape that does not fit the 2048-byte request buffer
                    let q: Vec<String> = (0..40u8).map(|i| format!("info_hash={}", pct(&[i; 20]))).collect();
                    let text = format!("GET /scrape?{} HTTP/1.1\r\nHost: t\r\n\r\n", q.join("&")).into_bytes();
                    let t = one(rng, &mut conns, ci, text, None, "oversized");
                    conns[ci].stream = None;
                    items.push(t);
                }
                _ => {
                    // burst: every connection announces to its own torrent at the same moment
                    let mut plan = Vec::new();
                    for (i, c) in conns.iter_mut().enumerate() {
                        if c.stream.is_none() {
                            c.stream = Some(connect(c.v6, port));
                        }
                        let hash = pool[i];
                        let aport = 7000 + rng.below(4) as u16;
                        let bf: Option<(&str, IpAddr)> = if proxy { Some(*rng.pick(&fwd_pool)) } else { None };
                        let bh = bf.map(|(t, _)| format!("X-Forwarded-For: {}\r\n", t)).unwrap_or_default();
                        let (text, ev, left, want) = announce_text(rng, &hash, aport, &bh);
                        plan.push((i, text, hop_announce(bf.map(|(_, a)| a), c.v6, &hash, aport, ev, left, want)));
                    }
                    *kinds.entry("burst").or_insert(0) += 1;
                    let mut handles = Vec::new();
                    for (i, text, op) in plan {
                        let mut stream = conns[i].stream.take().unwrap();
                        handles.push(std::thread::spawn(move || {
                            let (raw, closed) = exchange(&mut stream, &text, &[], true);
                            (i, op, raw, closed, stream)
                        }));
                    }
                    let mut parts = Vec::new();
                    for h in handles {
                        let (i, op, raw, closed, stream) = h.join().unwrap();
                        if !closed {
                            conns[i].stream = Some(stream);
                        }
                        let reply = if raw.is_empty() {
                            "None".to_string()
                        } else {
                            let body_start = raw.windows(4).position(|w| w == b"\r\n\r\n").map(|p| p + 4).unwrap_or(raw.len());
                            match reply_term(&raw[body_start..]) {
                                Some(t) => format!("(Some ({}, {}))", cq::hex(&raw), t),
                                None => format!("(Some ({}, YFailure \"\"))", cq::hex(&raw)),
                            }
                        };
                        parts.push(format!("YStep {} (Some ({})) {} {}", cq::n(i), op, reply, cq::b(closed)));
                    }
                    items.extend(parts);
                }
            }
        }
        // audit: fresh connections of both families scrape every torrent of the case on its own:
        // what the swarm workers hold at the end must be what the reference tracker holds
        for (ci, v6) in [(0usize, false), (3usize, true)] {
            for h in pool.iter() {
                let mut stream = connect(v6, port);
                let ah = if proxy { format!("X-Forwarded-For: {}\r\n", if v6 { "2001:db8::99" } else { "198.51.100.9" }) } else { String::new() };
                let text = format!("GET /scrape?info_hash={} HTTP/1.1\r\nHost: t\r\n{}\r\n", pct(h), ah).into_bytes();
                let (raw, closed) = exchange(&mut stream, &text, &[], true);
                let reply = if raw.is_empty() {
                    "None".to_string()
                } else {
                    let body_start = raw.windows(4).position(|w| w == b"\r\n\r\n").map(|p| p + 4).unwrap_or(raw.len());
                    match reply_term(&raw[body_start..]) {
                        Some(t) => format!("(Some ({}, {}))", cq::hex(&raw), t),
                        None => format!("(Some ({}, YFailure \"\"))", cq::hex(&raw)),
                    }
                };
                // a connection number of its own (100 + ...): a fresh response buffer in the model
                items.push(format!(
                    "YStep {} (Some (HScrape {} [{}])) {} {}",
                    cq::n(100 + ci * 10 + (h[0] as usize)),
                    cq::b(v6),
                    cq::id20(h),
                    reply,
                    cq::b(closed)
                ));
            }
        }
        let _ = std::fs::remove_file(&acl_path);
    });
    let mut ks: Vec<_> = kinds.into_iter().collect();
    ks.sort();
    println!(
        "STAT {{\"tcp_segments\": {}, \"kinds\": {{{}}}}}",
        seg_total,
        ks.iter().map(|(k, n)| format!("\"{}\": {}", k, n)).collect::<Vec<_>>().join(", ")
    );
}

/// `http-expiry-probe`: real-time probe of C10 on a running http tracker (cleaning every 6 s,
/// max_peer_age 6 s): a peer announcing 3 s after start must survive the cleaning pass at 6 s
/// (its deadline is 9 s) and be gone after the pass at 12 s. Prints one `CASE` line whose
/// observation is the (complete + incomplete) count scraped at about 8 s and at about 14.5 s.
pub fn expiry_probe(args: &Args) {
    crate::drive(args, 0x10b, |_rng, _keep, _seed, header, items| {
        let port = free_port();
        let child = std::process::Command::new(std::env::current_exe().unwrap())
            .args(["http-tracker", "--port", &port.to_string(), "--socket-workers", "1", "--swarm-workers", "1", "--keep-alive", "1",
                   "--max-scrape", "10", "--max-peers", "10", "--cleaning-interval", "6", "--max-peer-age", "6"])
            .stdout(std::process::Stdio::null())
            .stderr(std::process::Stdio::null())
            .spawn()
            .unwrap();
        let _child = Child(child);
        let t0 = Instant::now();
        while TcpStream::connect(("127.0.0.1", port)).is_err() {
            std::thread::sleep(Duration::from_millis(10));
        }
        let started = t0.elapsed();
        let hash = [0x5au8; 20];
        let scrape = |port: u16| -> i64 {
            let mut s = connect(false, port);
            let text = format!("GET /scrape?info_hash={} HTTP/1.1\r\nHost: t\r\n\r\n", pct(&hash));
            let (raw, _) = exchange(&mut s, text.as_bytes(), &[], true);
            let body_start = raw.windows(4).position(|w| w == b"\r\n\r\n").map(|p| p + 4).unwrap_or(raw.len());
            match Response::parse_bytes(raw[body_start..].strip_suffix(b"\r\n").unwrap_or(&raw[body_start..])) {
                Ok(Response::Scrape(sr)) => sr.files.values().map(|f| (f.complete + f.incomplete) as i64).sum(),
                _ => -1,
            }
        };
        let wait_until = |secs: f64| {
            let target = Duration::from_secs_f64(secs) + started;
            while t0.elapsed() < target {
                std::thread::sleep(Duration::from_millis(20));
            }
        };
        wait_until(3.0);
        let mut s = connect(false, port);
        let text = format!("GET /announce?info_hash={}&peer_id={}&port=6881&uploaded=0&downloaded=0&left=1&compact=1 HTTP/1.1\r\nHost: t\r\n\r\n", pct(&hash), pct(&[b'p'; 20]));
        let _ = exchange(&mut s, text.as_bytes(), &[], true);
        wait_until(8.0);
        let at8 = scrape(port);
        wait_until(14.5);
        let at14 = scrape(port);
        *header = "6%N, 6%N".to_string();
        items.push(format!("({}, {})", cq::z(at8 as i128), cq::z(at14 as i128)));
    });
}
