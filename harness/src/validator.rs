//! C05: the real `ConnectionValidator` with the clock override (hook H2).  Ids are issued by
//! the implementation; queries cover the window boundaries, other addresses of both families,
//! all single-bit and a sample of double-bit alterations, forged ids and far-future times.
//! The keyed hash the model needs is observed from the implementation itself (clock := the
//! id's embedded time, create for that address, read the tag) and passed as a table.
use std::collections::BTreeMap;
use std::net::{IpAddr, Ipv4Addr, Ipv6Addr, SocketAddr};

use aquatic_common::CanonicalSocketAddr;
use aquatic_udp::config::Config;
use aquatic_udp::workers::socket::ConnectionValidator;
use aquatic_udp_protocol::ConnectionId;

use crate::coqfmt as cq;
use crate::Args;

fn octets(ip: &IpAddr) -> Vec<u8> {
    match ip {
        IpAddr::V4(a) => a.octets().to_vec(),
        IpAddr::V6(a) => a.octets().to_vec(),
    }
}

fn id_bytes(id: ConnectionId) -> [u8; 8] {
    id.0.get().to_ne_bytes()
}

pub fn run(args: &Args) {
    let addrs: Vec<IpAddr> = vec![
        IpAddr::V4(Ipv4Addr::new(10, 0, 0, 1)),
        IpAddr::V4(Ipv4Addr::new(10, 0, 0, 2)),
        IpAddr::V4(Ipv4Addr::new(0, 0, 0, 0)),
        IpAddr::V6(Ipv6Addr::new(0x2001, 0xdb8, 0, 0, 0, 0, 0, 1)),
        IpAddr::V6(Ipv6Addr::new(0x0a00, 0x0001, 0, 0, 0, 0, 0, 0)), // starts with the octets 10.0.0.1
        IpAddr::V6(Ipv6Addr::new(0, 0, 0, 0, 0, 0, 0, 1)),
    ];
    let ages: [u32; 9] = [0, 1, 59, 60, 61, 120, 1 << 31, u32::MAX - 1, u32::MAX];
    let times: [u32; 9] = [0, 1, 59, 60, 61, 1000, 1 << 31, u32::MAX - 61, u32::MAX];
    crate::drive(args, 0xc05, |rng, _keep, _seed, header, items| {
        let age = *rng.pick(&ages);
        let mut config = Config::default();
        config.cleaning.max_connection_age = age;
        let mut v = ConnectionValidator::new(&config).unwrap();
        let mut table: BTreeMap<Vec<u8>, u32> = BTreeMap::new();
        let mut queries: Vec<(u32, IpAddr, [u8; 8])> = Vec::new();
        let n_ids = 1 + rng.below(3);
        for _ in 0..n_ids {
            let t0 = if rng.chance(2, 3) { *rng.pick(&times) } else { rng.below(1 << 32) as u32 };
            let ip = *rng.pick(&addrs);
            let src = CanonicalSocketAddr::new(SocketAddr::new(ip, 1234));
            v.verif_set_seconds_since_start(t0);
            let id = id_bytes(v.create_connection_id(src));
            // clocks around the window edges
            let edges: Vec<u64> = vec![
                t0 as u64,
                t0 as u64 + age as u64 - (age.min(1) as u64),
                t0 as u64 + age as u64,
                t0 as u64 + age as u64 + 1,
                (t0 as u64).saturating_sub(59),
                (t0 as u64).saturating_sub(60),
                (t0 as u64).saturating_sub(61),
                rng.below(1 << 32),
                u32::MAX as u64,
            ];
            for now in edges {
                if now > u32::MAX as u64 {
                    continue;
                }
                queries.push((now as u32, ip, id));
                if rng.chance(1, 3) {
                    queries.push((now as u32, *rng.pick(&addrs), id));
                }
            }
            // alterations at an in-window clock
            let now = t0;
            for bit in 0..64 {
                if rng.chance(1, 3) {
                    let mut alt = id;
                    alt[bit / 8] ^= 1 << (bit % 8);
                    queries.push((now, ip, alt));
                }
            }
            for _ in 0..4 {
                let mut alt = id;
                let (a, b) = (rng.below(64) as usize, rng.below(64) as usize);
                alt[a / 8] ^= 1 << (a % 8);
                alt[b / 8] ^= 1 << (b % 8);
                queries.push((now, ip, alt));
            }
            let mut forged = [0u8; 8];
            for b in forged.iter_mut() {
                *b = rng.below(256) as u8;
            }
            queries.push((now, ip, forged));
            let mut future = id;
            future[..4].copy_from_slice(&u32::MAX.to_ne_bytes());
            queries.push((now, ip, future));
        }
        // observe the keyed hash on every (time bytes, address) the queries will evaluate
        for (_, ip, id) in &queries {
            let mut input = id[..4].to_vec();
            let canon = CanonicalSocketAddr::new(SocketAddr::new(*ip, 1));
            input.extend(octets(&canon.get().ip()));
            if !table.contains_key(&input) {
                let e = u32::from_ne_bytes(id[..4].try_into().unwrap());
                v.verif_set_seconds_since_start(e);
                let t = id_bytes(v.create_connection_id(canon));
                table.insert(input, u32::from_le_bytes(t[4..].try_into().unwrap()));
            }
        }
        let tbl: Vec<String> = table.iter().map(|(k, t)| format!("({}, {})", cq::hex(k), cq::n(*t))).collect();
        *header = format!("{}, {}", cq::n(age), cq::list(&tbl));
        for (now, ip, id) in &queries {
            let canon = CanonicalSocketAddr::new(SocketAddr::new(*ip, 4321));
            v.verif_set_seconds_since_start(*now);
            let ok = v.connection_id_valid(canon, ConnectionId::new(i64::from_ne_bytes(*id)));
            items.push(format!(
                "({}, {}, {}, {})",
                cq::n(*now),
                cq::hex(&octets(&canon.get().ip())),
                cq::hex(id),
                cq::b(ok)
            ));
        }
    });
}
