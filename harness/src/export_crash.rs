//! C20 atomic replacement of the scrape export: a child process runs a cleaning pass with
//! exports enabled and aborts itself at the k-th export probe (hook H4: created, each line,
//! flushed, closed, renamed); the parent then reads the configured path.
use std::net::{IpAddr, Ipv4Addr, SocketAddr};
use std::num::NonZeroU16;
use std::sync::atomic::{AtomicUsize, Ordering};
use std::sync::Arc;

use aquatic_common::access_list::AccessListArcSwap;
use aquatic_common::{CanonicalSocketAddr, SecondsSinceServerStart, ValidUntil};
use aquatic_udp::common::Statistics;
use aquatic_udp::config::Config;
use aquatic_udp::swarm::TorrentMaps;
use aquatic_udp_protocol::*;
use rand::prelude::*;

use crate::coqfmt as cq;
use crate::Args;

const OLD_CONTENT: &str = "4 00000000000000000000000000000000000000aa 9 9\n";

fn run_clean(dir: &std::path::Path, n_torrents: usize, abort_at: Option<usize>) {
    let mut config = Config::default();
    config.scrape_exports.enable_scrape_exports = true;
    config.scrape_exports.path = dir.join("export.txt");
    let maps = TorrentMaps::default();
    let statistics = Statistics::new(&config).swarm;
    let (tx, _rx) = crossbeam_channel::unbounded();
    let access_list: Arc<AccessListArcSwap> = Arc::new(AccessListArcSwap::default());
    let mut rng = SmallRng::seed_from_u64(1);
    for t in 0..n_torrents {
        let mut hash = [0u8; 20];
        hash[0] = t as u8;
        let request = AnnounceRequest {
            connection_id: ConnectionId::new(7),
            action_placeholder: Default::default(),
            transaction_id: TransactionId::new(9),
            info_hash: InfoHash(hash),
            peer_id: PeerId([1u8; 20]),
            bytes_downloaded: NumberOfBytes::new(0),
            bytes_uploaded: NumberOfBytes::new(0),
            bytes_left: NumberOfBytes::new(t as i64 % 2),
            event: AnnounceEvent::Started,
            ip_address: Ipv4AddrBytes([0; 4]),
            key: PeerKey::new(0),
            peers_wanted: NumberOfPeers::new(0),
            port: Port::new(NonZeroU16::new(1000).unwrap()),
        };
        let src = CanonicalSocketAddr::new(SocketAddr::new(IpAddr::V4(Ipv4Addr::new(10, 0, 0, 1)), 1));
        maps.announce(&config, &tx, &mut rng, &request, src, ValidUntil::new_raw(SecondsSinceServerStart::new_raw(100)));
    }
    if let Some(k) = abort_at {
        static COUNT: AtomicUsize = AtomicUsize::new(0);
        aquatic_common::verif::set_probe(Some(Box::new(move |name, _| {
            if name.starts_with("export_") {
                let c = COUNT.fetch_add(1, Ordering::SeqCst) + 1;
                if c == k {
                    std::process::abort();
                }
            }
        })));
        if k == 0 {
            std::process::abort();
        }
    }
    maps.clean_and_update_statistics(&config, &statistics, &tx, &access_list, SecondsSinceServerStart::new_raw(5), true);
}

pub fn child(args: &Args) {
    let dir = std::path::PathBuf::from(&args.extra["dir"]);
    let n: usize = args.extra["n"].parse().unwrap();
    let k: usize = args.extra["k"].parse().unwrap();
    run_clean(&dir, n, Some(k));
}

pub fn run(args: &Args) {
    let exe = std::env::current_exe().unwrap();
    let base = std::path::PathBuf::from(format!("/verif/.cache/scratch/export-crash-{}", std::process::id()));
    std::fs::create_dir_all(&base).unwrap();
    // reference content of a complete export for n torrents (line order is the shard order, deterministic)
    let mut complete: Vec<String> = Vec::new();
    for n in 0..5 {
        let d = base.join(format!("ref{}", n));
        std::fs::create_dir_all(&d).unwrap();
        run_clean(&d, n, None);
        complete.push(std::fs::read_to_string(d.join("export.txt")).unwrap());
    }
    crate::drive(args, 0xc4a5, |rng, _keep, _seed, header, items| {
        let n = rng.below(5) as usize;
        let had_old = rng.chance(4, 5);
        // steps: create, n lines, flush, close, rename  => n + 4 probes; k = n + 5 never aborts
        let k = rng.below(n as u64 + 6) as usize;
        let d = base.join("case");
        let _ = std::fs::remove_dir_all(&d);
        std::fs::create_dir_all(&d).unwrap();
        if had_old {
            std::fs::write(d.join("export.txt"), OLD_CONTENT).unwrap();
        }
        // a temporary file left behind by an earlier, killed export: longer than anything this
        // run writes and ending in the middle of a line (the protocol creates it truncating)
        if rng.chance(1, 2) {
            let mut stale = String::new();
            for i in 0..9 {
                stale.push_str(&format!("4 {:040x} 7 7\n", 0xee00 + i));
            }
            stale.push_str("4 00000000000000000000");
            std::fs::write(d.join("export.tmp"), stale).unwrap();
        }
        let status = std::process::Command::new(&exe)
            .args(["export-child", "--dir", d.to_str().unwrap(), "--n", &n.to_string(), "--k", &k.to_string()])
            .stdout(std::process::Stdio::null())
            .stderr(std::process::Stdio::null())
            .status()
            .unwrap();
        let aborted = !status.success();
        let found = std::fs::read_to_string(d.join("export.txt")).ok();
        // 0 = the previous complete file (or no file when there was none), 1 = the new complete file, 2 = anything else
        let code = match &found {
            None => {
                if had_old {
                    2
                } else {
                    0
                }
            }
            Some(c) if had_old && c == OLD_CONTENT => 0,
            Some(c) if *c == complete[n] => 1,
            _ => 2,
        };
        *header = format!("{}, {}, {}", cq::nat(n), cq::b(had_old), cq::nat(k));
        items.push(format!("({}, {})", cq::b(aborted), cq::n(code)));
    });
    let _ = std::fs::remove_dir_all(&base);
}
