#!/usr/bin/env python3
"""Translator for declarative facts: re-reads the Rust sources of /repo on every run and
regenerates coq/Gen/*.v (numeric constants, config defaults, byte-string literals, packed
struct layouts, enum discriminants).  Only declarative items are translated; behaviour is
modelled by hand and tied to the code by the correspondence checks.  Fails loudly when an
item cannot be found, so a renamed constant is noticed rather than silently defaulted.

usage: facts.py <repo> <outdir>
"""
import os, re, sys


class Missing(Exception):
    pass


def read(repo, rel):
    with open(os.path.join(repo, rel)) as f:
        return f.read()


def strip_comments(src):
    src = re.sub(r"//[^\n]*", "", src)
    return re.sub(r"/\*.*?\*/", "", src, flags=re.S)


def eval_int(expr, env=None):
    """Evaluate a Rust integer constant expression made of literals, + - * / and parentheses
    (identifiers are looked up in env: constants already read from the same file)."""
    e = expr.strip()
    for name, val in (env or {}).items():
        e = re.sub(r"\b%s\b" % re.escape(name), str(val), e)
    e = re.sub(r"_(?=\d)", "", e)
    e = re.sub(r"(\d)(usize|u8|u16|u32|u64|i8|i16|i32|i64|isize)\b", r"\1", e)
    if not re.fullmatch(r"[0-9xXa-fA-F+\-*/() \t\n]+", e):
        raise Missing("cannot evaluate constant expression %r" % expr)
    return int(eval(e.replace("/", "//"), {"__builtins__": {}}))


SIZEOF = {}   # filled by gen(): byte sizes of the wire types, for size_of::<T>() in constant expressions


def const(src, name, where, env=None, depth=0):
    """Value of `const NAME: T = <expr>;`. Identifiers in the expression are resolved from env,
    then from other consts of the same source (recursively); `size_of::<T>()` from the wire layouts."""
    m = re.search(r"\bconst\s+%s\s*:\s*[A-Za-z0-9_]+\s*=\s*([^;]+);" % re.escape(name), src)
    if not m:
        raise Missing("const %s not found in %s" % (name, where))
    expr = m.group(1)

    def sz(mm):
        ty = re.sub(r"\s+", "", mm.group(1))
        if ty not in SIZEOF:
            raise Missing("size_of::<%s>() in const %s (%s): size of that type is not known to the translator" % (ty, name, where))
        return str(SIZEOF[ty])
    expr = re.sub(r"(?:(?:::)?(?:std|core)::)?(?:mem::)?size_of::<\s*([^()]+?)\s*>\(\)", sz, expr)
    env = dict(env or {})
    if depth < 6:
        for ident in set(re.findall(r"\b[A-Z][A-Z0-9_]+\b", expr)):
            if ident not in env and re.search(r"\bconst\s+%s\s*:" % re.escape(ident), src):
                env[ident] = const(src, ident, where, None, depth + 1)
    return eval_int(expr, env)


def has_guard(src, cond_regex):
    """Is there an `if <cond> { return ...Err(` start-up validation?  (a boolean fact: when the
    check disappears the fact turns false and the theorems that rest on it stop being provable)"""
    return re.search(r"if\s+" + cond_regex + r"\s*\{\s*return\s+(?:Result::)?Err\(", src) is not None


def default_field(src, struct, field, where):
    """Value of `field: <expr>,` inside `impl Default for <struct>`."""
    m = re.search(r"impl\s+Default\s+for\s+%s\s*\{(.*?)\n\}" % re.escape(struct), src, flags=re.S)
    if not m:
        raise Missing("impl Default for %s not found in %s" % (struct, where))
    body = m.group(1)
    f = re.search(r"\b%s\s*:\s*([^,\n]+)," % re.escape(field), body)
    if not f:
        raise Missing("default of %s.%s not found in %s" % (struct, field, where))
    return eval_int(f.group(1))


def byte_literal(src, name, where):
    m = re.search(r"\b(?:const|static)\s+%s\s*:\s*&\[u8\]\s*=\s*b\"((?:[^\"\\]|\\.)*)\"\s*;" % re.escape(name), src)
    if not m:
        raise Missing("byte literal %s not found in %s" % (name, where))
    raw = m.group(1)
    out = []
    i = 0
    while i < len(raw):
        c = raw[i]
        if c == "\\":
            n = raw[i + 1]
            if n == "r":
                out.append(13)
            elif n == "n":
                out.append(10)
            elif n == "t":
                out.append(9)
            elif n == "0":
                out.append(0)
            elif n == "\\":
                out.append(92)
            elif n == '"':
                out.append(34)
            elif n == "x":
                out.append(int(raw[i + 2:i + 4], 16))
                i += 2
            else:
                raise Missing("escape \\%s in %s" % (n, name))
            i += 2
        else:
            out.append(ord(c))
            i += 1
    return out


# ---- wire layouts ---------------------------------------------------------------------------

def newtype_map(common_src):
    """`pub struct NumberOfBytes(pub I64);` -> {'NumberOfBytes': 'I64'} and byte arrays."""
    m = {}
    for name, inner in re.findall(r"pub\s+struct\s+([A-Za-z0-9_]+)\s*\(\s*pub\s+([^)]+?)\s*\)\s*;", common_src):
        m[name] = inner.strip()
    return m


def wire_type(ty, newtypes, enums):
    ty = ty.strip()
    seen = 0
    while ty in newtypes and seen < 5:
        ty = newtypes[ty]
        seen += 1
    prim = {"I32": "FI32", "I64": "FI64", "U16": "FU16", "U32": "FU32"}
    if ty in prim:
        return prim[ty]
    a = re.fullmatch(r"\[\s*u8\s*;\s*(\d+)\s*\]", ty)
    if a:
        return "(FBytes %s)" % a.group(1)
    if ty in enums:
        return "(FEnum %s)" % enums[ty]
    if ty == "I":
        return "FIp"
    raise Missing("unknown wire type %r" % ty)


def packed_struct(src, name, where):
    m = re.search(r"#\[repr\(C,\s*packed\)\]\s*pub\s+struct\s+%s\b[^{]*\{(.*?)\n\}" % re.escape(name), src, flags=re.S)
    if not m:
        raise Missing("#[repr(C, packed)] struct %s not found in %s" % (name, where))
    fields = re.findall(r"pub\s+([a-z_0-9]+)\s*:\s*([^,\n]+),", strip_comments(m.group(1)))
    if not fields:
        raise Missing("no fields in %s" % name)
    return fields


def repr_i32_enum(src, name, where):
    m = re.search(r"#\[repr\(i32\)\]\s*pub\s+enum\s+%s\s*\{(.*?)\n\}" % re.escape(name), src, flags=re.S)
    if not m:
        raise Missing("#[repr(i32)] enum %s not found in %s" % (name, where))
    vs = re.findall(r"([A-Za-z0-9_]+)\s*=\s*(-?\d+)_i32\.to_be\(\)", strip_comments(m.group(1)))
    if not vs:
        raise Missing("no `N_i32.to_be()` discriminants in %s" % name)
    return [(n, int(v)) for n, v in vs]


def coq_list(items):
    return "[" + "; ".join(items) + "]"


def fill_sizeof(repo):
    """Byte sizes of the udp wire types (packed structs, newtypes, address arrays)."""
    pc = strip_comments(read(repo, "crates/udp_protocol/src/common.rs"))
    rq = strip_comments(read(repo, "crates/udp_protocol/src/request.rs"))
    rs = strip_comments(read(repo, "crates/udp_protocol/src/response.rs"))
    pid = strip_comments(read(repo, "crates/peer_id/src/lib.rs"))
    newtypes = newtype_map(pc)
    newtypes.update(newtype_map(pid))
    prim = {"I32": 4, "U32": 4, "I64": 8, "U16": 2, "u8": 1, "u16": 2, "u32": 4, "u64": 8, "i32": 4, "i64": 8}

    def size(ty, ip=None):
        ty = ty.strip()
        for _ in range(6):
            if ty in newtypes:
                ty = newtypes[ty]
        if ty in prim:
            return prim[ty]
        a = re.fullmatch(r"\[\s*u8\s*;\s*(\d+)\s*\]", ty)
        if a:
            return int(a.group(1))
        if ty == "I" and ip is not None:
            return ip
        if re.search(r"#\[repr\(i32\)\]\s*pub\s+enum\s+%s\b" % re.escape(ty), rq + rs + pc):
            return 4
        raise Missing("size of wire type %r" % ty)
    SIZEOF.clear()
    for nt in newtypes:
        try:
            SIZEOF[nt] = size(nt)
        except Missing:
            pass
    for st, src in (("AnnounceRequest", rq), ("ConnectResponse", rs), ("AnnounceResponseFixedData", rs), ("TorrentScrapeStatistics", rs)):
        try:
            SIZEOF[st] = sum(size(t) for _, t in packed_struct(src, st, "udp_protocol"))
        except Missing:
            pass
    try:
        fields = packed_struct(rs, "ResponsePeer", "udp_protocol")
        for ipname in ("Ipv4AddrBytes", "Ipv6AddrBytes"):
            SIZEOF["ResponsePeer<%s>" % ipname] = sum(size(t, SIZEOF.get(ipname)) for _, t in fields)
    except Missing:
        pass


def gen(repo):
    files = {}
    consts = []
    fill_sizeof(repo)

    def add(name, value, src):
        consts.append((name, value, src))

    udp_swarm = strip_comments(read(repo, "crates/udp/src/swarm.rs"))
    add("udp_small_cap", const(udp_swarm, "SMALL_PEER_MAP_CAPACITY", "udp/swarm.rs"), "crates/udp/src/swarm.rs")
    add("udp_num_shards", const(udp_swarm, "NUM_SHARDS", "udp/swarm.rs"), "crates/udp/src/swarm.rs")
    udp_common = strip_comments(read(repo, "crates/udp/src/common.rs"))
    add("udp_BUFFER_SIZE", const(udp_common, "BUFFER_SIZE", "udp/common.rs"), "crates/udp/src/common.rs")
    add("udp_MAX_RESPONSE_PEERS_LIMIT", const(udp_common, "MAX_RESPONSE_PEERS_LIMIT", "udp/common.rs",
                                              {"BUFFER_SIZE": const(udp_common, "BUFFER_SIZE", "udp/common.rs")}), "crates/udp/src/common.rs")
    uring = strip_comments(read(repo, "crates/udp/src/workers/socket/uring/mod.rs"))
    add("uring_RESPONSE_BUF_LEN", const(uring, "RESPONSE_BUF_LEN", "uring/mod.rs"), "crates/udp/src/workers/socket/uring/mod.rs")
    add("uring_REQUEST_BUF_LEN", const(uring, "REQUEST_BUF_LEN", "uring/mod.rs"), "crates/udp/src/workers/socket/uring/mod.rs")
    add("uring_MAX_RESPONSE_PEERS_LIMIT", const(uring, "MAX_RESPONSE_PEERS_LIMIT_URING", "uring/mod.rs",
                                                {"RESPONSE_BUF_LEN": const(uring, "RESPONSE_BUF_LEN", "uring/mod.rs")}),
        "crates/udp/src/workers/socket/uring/mod.rs")
    udp_cfg = strip_comments(read(repo, "crates/udp/src/config.rs"))
    add("udp_default_max_scrape_torrents", default_field(udp_cfg, "ProtocolConfig", "max_scrape_torrents", "udp/config.rs"), "crates/udp/src/config.rs")
    add("udp_default_max_response_peers", default_field(udp_cfg, "ProtocolConfig", "max_response_peers", "udp/config.rs"), "crates/udp/src/config.rs")
    add("udp_default_max_connection_age", default_field(udp_cfg, "CleaningConfig", "max_connection_age", "udp/config.rs"), "crates/udp/src/config.rs")
    add("udp_default_max_peer_age", default_field(udp_cfg, "CleaningConfig", "max_peer_age", "udp/config.rs"), "crates/udp/src/config.rs")

    http_storage = strip_comments(read(repo, "crates/http/src/workers/swarm/storage.rs"))
    add("http_small_cap", const(http_storage, "SMALL_PEER_MAP_CAPACITY", "http/storage.rs"), "crates/http/src/workers/swarm/storage.rs")
    http_conn = strip_comments(read(repo, "crates/http/src/workers/socket/connection.rs"))
    add("http_REQUEST_BUFFER_SIZE", const(http_conn, "REQUEST_BUFFER_SIZE", "http/connection.rs"), "crates/http/src/workers/socket/connection.rs")
    add("http_RESPONSE_BUFFER_SIZE", const(http_conn, "RESPONSE_BUFFER_SIZE", "http/connection.rs"), "crates/http/src/workers/socket/connection.rs")
    http_cfg = strip_comments(read(repo, "crates/http/src/config.rs"))
    add("http_default_max_scrape_torrents", default_field(http_cfg, "ProtocolConfig", "max_scrape_torrents", "http/config.rs"), "crates/http/src/config.rs")
    add("http_default_max_peers", default_field(http_cfg, "ProtocolConfig", "max_peers", "http/config.rs"), "crates/http/src/config.rs")
    add("http_MAX_PEERS_LIMIT", const(http_cfg, "MAX_PEERS_LIMIT", "http/config.rs"), "crates/http/src/config.rs")
    ws_cfg = strip_comments(read(repo, "crates/ws/src/config.rs"))
    add("ws_default_max_scrape_torrents", default_field(ws_cfg, "ProtocolConfig", "max_scrape_torrents", "ws/config.rs"), "crates/ws/src/config.rs")
    add("ws_default_max_offers", default_field(ws_cfg, "ProtocolConfig", "max_offers", "ws/config.rs"), "crates/ws/src/config.rs")

    udp_req = strip_comments(read(repo, "crates/udp_protocol/src/request.rs"))
    add("udp_PROTOCOL_IDENTIFIER", const(udp_req, "PROTOCOL_IDENTIFIER", "udp_protocol/request.rs"), "crates/udp_protocol/src/request.rs")

    out = ["(* GENERATED by /verif/translator/facts.py from /repo's working tree - do not edit. *)",
           "From Coq Require Import NArith ZArith List String.", "Import ListNotations.", ""]
    for name, value, src in consts:
        out.append("(* %s *)" % src)
        out.append("Definition %s : N := %d%%N." % (name, value))
    # start-up validations (is the refusing `if ... { return Err(..) }` present?)
    udp_lib = strip_comments(read(repo, "crates/udp/src/lib.rs"))
    http_lib = strip_comments(read(repo, "crates/http/src/lib.rs"))
    guards = [
        ("udp_validates_max_response_peers", has_guard(udp_lib, r"config\.protocol\.max_response_peers\s*>\s*common::MAX_RESPONSE_PEERS_LIMIT"), "crates/udp/src/lib.rs run()"),
        ("uring_validates_max_response_peers", has_guard(uring, r"config\.protocol\.max_response_peers\s*>\s*MAX_RESPONSE_PEERS_LIMIT_URING"), "uring/mod.rs SocketWorker::run"),
        ("http_validates_max_peers", has_guard(http_lib, r"config\.protocol\.max_peers\s*>\s*config::MAX_PEERS_LIMIT"), "crates/http/src/lib.rs run()"),
    ]
    # connection.rs handle_request: is the scrape's hash list cut to max_scrape_torrents BEFORE it
    # is split among the swarm workers?
    guards.append(("http_scrape_cut_before_split",
                   re.search(r"info_hashes\s*\.into_iter\(\)\s*\.take\(\s*self\s*\.config\s*\.protocol\s*\.max_scrape_torrents\s*\)", http_conn) is not None,
                   "crates/http/src/workers/socket/connection.rs handle_request"))
    ws_conn = strip_comments(read(repo, "crates/ws/src/workers/socket/connection.rs"))
    guards.append(("ws_scrape_cut_before_split",
                   re.search(r"\.take\(\s*self\s*\.config\s*\.protocol\s*\.max_scrape_torrents\s*\)", ws_conn) is not None,
                   "crates/ws/src/workers/socket/connection.rs handle_scrape_request"))
    guards.append(("ws_scrape_empty_answered",
                   re.search(r"if\s+info_hashes_by_worker\s*\.is_empty\(\)", ws_conn) is not None,
                   "crates/ws/src/workers/socket/connection.rs handle_scrape_request"))
    # ---- the watchdog at the end of each run(): scan period and the three join() arms
    ws_lib = strip_comments(read(repo, "crates/ws/src/lib.rs"))
    for tname, lib in (("udp", udp_lib), ("http", http_lib), ("ws", ws_lib)):
        # the sleep must come after the END of the for loop over the handles (one scan per period):
        # four closing braces - last arm, match, if, for - precede it
        m = re.search(r"if\s+handle\.is_finished\(\)\s*\{(.*)\}\s*\}\s*\}\s*\}\s*sleep\(Duration::from_secs\((\d+)\)\)", lib, flags=re.S)
        if not m:
            raise Missing("watchdog loop (is_finished ... sleep(Duration::from_secs(N))) not found in crates/%s/src/lib.rs" % tname)
        body, period = m.group(1), int(m.group(2))
        out.append("(* crates/%s/src/lib.rs run(): watchdog scan period in seconds *)" % tname)
        out.append("Definition %s_watchdog_period : N := %d%%N." % (tname, period))
        arms = all(re.search(p_, body, flags=re.S) for p_ in (
            r"Ok\(Ok\(\(\)\)\)\s*=>\s*\{\s*return\s+Err\(",
            r"Ok\(Err\(\w+\)\)\s*=>\s*\{\s*return\s+Err\(",
            r"Err\(_\)\s*=>\s*\{\s*return\s+Err\("))
        guards.append(("%s_watchdog_every_ending_is_an_error" % tname, arms, "crates/%s/src/lib.rs run(): all three handle.join() arms return Err" % tname))
    # swarm.rs clean phase 2: a torrent is only dropped as empty when nobody else holds its Arc
    udp_swarm = strip_comments(read(repo, "crates/udp/src/swarm.rs"))
    guards.append(("udp_clean_keeps_shared_arc",
                   re.search(r"if\s+let\s+Some\(peer_map\)\s*=\s*Arc::get_mut\(peer_map\)\s*\{\s*if\s+peer_map\.read\(\)\.is_empty\(\)\s*\{\s*return\s+false;", udp_swarm) is not None,
                   "crates/udp/src/swarm.rs clean_and_get_statistics phase 2 (Arc::get_mut guard)"))
    # swarm.rs announce: lookup and insertion of a torrent's cell happen under ONE lock (upgradable
    # read, upgraded on a miss, entry().or_default()): the model's IAnn1 is one atomic instruction
    guards.append(("udp_announce_get_or_create_atomic",
                   re.search(r"\.upgradable_read\(\)", udp_swarm) is not None
                   and re.search(r"RwLockUpgradableReadGuard::upgrade\(\s*torrent_map_shard\s*\)\s*\.entry\(\s*request\.info_hash\s*\)\s*\.or_default\(\)", udp_swarm) is not None,
                   "crates/udp/src/swarm.rs TorrentMapShards::announce (upgradable read + upgrade + entry().or_default())"))
    # swarm.rs scrape export: the temporary file is opened with File::create (create OR TRUNCATE)
    guards.append(("udp_export_tmp_created_truncating",
                   re.search(r"File::create\(\s*config\s*\.scrape_exports\s*\.tmp_path\(\)\s*\)", udp_swarm) is not None,
                   "crates/udp/src/swarm.rs clean_and_update_statistics (File::create(tmp_path))"))
    # udp socket workers: cadence of the clock refresh (connection-id clock and peer deadline sample):
    # mio every N-th poll iteration, io_uring on a pulse timer of S seconds
    mio_mod = strip_comments(read(repo, "crates/udp/src/workers/socket/mio/mod.rs"))
    m = re.search(r"if\s+iter_counter\s*%\s*(\d+)\s*==\s*0\s*\{\s*shared\.validator\.update_elapsed\(\)", mio_mod)
    out.append("(* crates/udp/src/workers/socket/mio/mod.rs: clock refresh every N poll iterations (0: pattern gone) *)")
    out.append("Definition udp_mio_clock_refresh_polls : N := %d%%N." % (int(m.group(1)) if m else 0))
    m = re.search(r"pulse_timeout_sqe\s*=\s*\{\s*let\s+timespec_ptr\s*=\s*Box::into_raw\(Box::new\(Timespec::new\(\)\.sec\((\d+)\)\)\)", uring)
    out.append("(* crates/udp/src/workers/socket/uring/mod.rs: pulse timer of the clock refresh, seconds (0: pattern gone) *)")
    out.append("Definition udp_uring_clock_pulse_secs : N := %d%%N." % (int(m.group(1)) if m else 0))
    # http swarm worker: how often the shared peer_valid_until sample is refreshed (seconds; 0 = not a
    # literal constant any more)
    http_swarm_mod = strip_comments(read(repo, "crates/http/src/workers/swarm/mod.rs"))
    m = re.search(r"\*peer_valid_until\.borrow_mut\(\)\s*=\s*valid_until;.*?Some\(([^\n;]*)\)\s*\}\)\(\)", http_swarm_mod, flags=re.S)
    refresh = 0
    if m:
        lit = re.fullmatch(r"\s*Duration::from_secs\((\d+)\)\s*", m.group(1))
        if lit:
            refresh = int(lit.group(1))
    out.append("(* crates/http/src/workers/swarm/mod.rs: refresh period of the peer_valid_until sample, seconds (0: not a literal) *)")
    out.append("Definition http_peer_valid_until_refresh_secs : N := %d%%N." % refresh)
    for name, val, src in guards:
        out.append("(* %s *)" % src)
        out.append("Definition %s : bool := %s." % (name, "true" if val else "false"))
    files["Consts.v"] = "\n".join(out) + "\n"

    # ---- byte literals of the http response header
    lit = ["(* GENERATED by /verif/translator/facts.py - do not edit. *)",
           "From Coq Require Import NArith List.", "Import ListNotations.", ""]
    for nm in ("RESPONSE_HEADER_A", "RESPONSE_HEADER_B", "RESPONSE_HEADER_C"):
        bs = byte_literal(http_conn, nm, "http/connection.rs")
        lit.append("Definition http_%s : list N := %s%%N." % (nm, coq_list([str(b) for b in bs])))
    files["Literals.v"] = "\n".join(lit) + "\n"

    # ---- udp wire layouts
    udp_pcommon = strip_comments(read(repo, "crates/udp_protocol/src/common.rs"))
    udp_resp = strip_comments(read(repo, "crates/udp_protocol/src/response.rs"))
    peer_id_src = strip_comments(read(repo, "crates/peer_id/src/lib.rs"))
    newtypes = newtype_map(udp_pcommon)
    newtypes.update(newtype_map(peer_id_src))
    enums = {}
    lay = ["(* GENERATED by /verif/translator/facts.py - do not edit. *)",
           "From Coq Require Import NArith ZArith List String.", "From Aquatic Require Import Layout.",
           "Import ListNotations.", "Open Scope string_scope.", ""]
    for en in ("AnnounceEvent", "AnnounceActionPlaceholder"):
        vs = repr_i32_enum(udp_req, en, "udp_protocol/request.rs")
        nm = "enum_" + en
        lay.append("Definition %s : list (string * Z) := %s." % (nm, coq_list(['("%s", %s%%Z)' % (n, ("(%d)" % v) if v < 0 else str(v)) for n, v in vs])))
        enums[en] = nm
    for st, src, where in (("AnnounceRequest", udp_req, "request.rs"), ("ConnectResponse", udp_resp, "response.rs"),
                           ("AnnounceResponseFixedData", udp_resp, "response.rs"), ("TorrentScrapeStatistics", udp_resp, "response.rs"),
                           ("ResponsePeer", udp_pcommon, "common.rs")):
        fields = packed_struct(src, st, "udp_protocol/" + where)
        items = ['("%s", %s)' % (n, wire_type(t, newtypes, enums)) for n, t in fields]
        lay.append("Definition layout_%s : list (string * fty) := %s." % (st, coq_list(items)))
    files["Layouts.v"] = "\n".join(lay) + "\n"
    return files


def main():
    repo, outdir = sys.argv[1], sys.argv[2]
    os.makedirs(outdir, exist_ok=True)
    try:
        files = gen(repo)
    except Missing as e:
        print("TRANSLATOR-ERROR: %s" % e)
        sys.exit(3)
    for name, content in files.items():
        path = os.path.join(outdir, name)
        old = open(path).read() if os.path.exists(path) else None
        if old != content:
            with open(path, "w") as f:
                f.write(content)
            print("regenerated", name)


if __name__ == "__main__":
    main()
